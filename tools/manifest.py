#!/venv/bin/python
"""Regenerate MANIFEST.json from the table below (single source of truth)."""
import json
import os

HERE = os.path.dirname(os.path.dirname(os.path.abspath(__file__)))

TECH = ("contract-based deductive verification: sidecar contracts on the real functions, "
        "self-generated VCs (python AST -> SMT-LIB) discharged by z3/cvc5")

CLAIMED = {
    "C07": {
        "text": "Proof: every obligation generated from the current source of _cpu_times_deltas, _cpu_tot_time, "
                "_cpu_busy_time, cpu_percent.calculate and cpu_times_percent.calculate (for each kernel arity 7-10) "
                "is discharged for all real-valued counter snapshots: clamped deltas, busy/total share in [0,100], "
                "per-field shares adding up to 100 for any elapsed total however small. Process.cpu_percent (blocking "
                "and non-blocking, first call 0.0, state update, ValueError). The system-wide cpu_percent() / "
                "cpu_times_percent() front ends: the value is calculate(own previous sample | fresh | pre-sleep sample, "
                "newest sample) with calculate a ghost function pinned by its own contract, the calling thread's newest "
                "sample is stored and no other thread's entry is touched. /proc/stat decoding by a bounded sweep.",
        "note": "floats treated as reals; round(x,1) abstracted (|r-x|<=0.05, multiple of 0.1); threads only as the "
                "per-thread frame (no interleavings); one recorded known finding (C07-subsecond-total); trusted: own VC "
                "generator, cvc5, z3.",
        "ref": "DESIGN.md section 5 (C07)",
    },
}

CLAIMED["C08"] = {
    "text": "Proof: usage_percent, calculate_avail_vmem, virtual_memory and swap_memory are verified against the "
            "documented formulas for every /proc/meminfo (any subset of optional keys, any magnitudes), vmstat and "
            "zoneinfo content allowed by the stated kernel grammars: all ~6.6k paths of virtual_memory, loop invariants "
            "for the three file-parsing loops, warnings, the [0,total] clamp and the percent range.",
    "note": "meminfo/vmstat/zoneinfo line grammars are assumed (kernel contract); bytes.split/strip/int() library "
            "models; floats as reals; PAGESIZE fixed at 4096; callee contracts applied modularly (calculate_avail_vmem's "
            "value is an arbitrary int for virtual_memory).",
    "ref": "DESIGN.md section 5 (C08)",
}

CLAIMED["C06"] = {
    "text": "Proof: _parse_stat_file (through its real decorators), name, ppid, status, cpu_times, create_time, cpu_num, "
            "terminal, uids, gids, num_threads are verified against the kernel record grammars for every comm byte "
            "string of 0-15 bytes (parentheses, spaces, newlines, non-UTF-8) and every counter magnitude: name = bytes "
            "between the first '(' and the last ')', each field the token at its documented index, state letter table, "
            "ticks/CLK, status-file keys taken from their own lines. threads() and num_ctx_switches() are covered by "
            "bounded sweeps only (labelled bounded in evidence).",
    "note": "stat/status record grammars assumed (kernel contract), stated with the same uninterpreted split() the "
            "library model uses; re.findall modelled for the literal+(\\d+) pattern family; floats as reals; undecided "
            "string obligations fall back to a witness search whose hits are replayed on the real code.",
    "ref": "DESIGN.md section 5 (C06)",
}

CLAIMED["C14"] = {
    "text": "Proof: file_flags_to_mode for every flag word (exact bit arithmetic on unbounded ints, no exception for any "
            "access mode), io_counters (line loop with invariant over the symbolic /proc/<pid>/io: six counters under "
            "the documented names, blank/malformed lines ignored, RuntimeError/ValueError cases) and num_fds, each "
            "through the real wrap_exceptions decorator; table: no caching decorator / oneshot cache on the three "
            "readers. open_files()' descriptor scan (the undecorated method body) is under contract for descriptor "
            "tables of 0..2 entries (3 in the thorough tier): every readlink outcome per descriptor (regular file at an "
            "absolute path, other absolute target, non-absolute target, ENOENT, ESRCH, EINVAL, ENAMETOOLONG, any other "
            "errno), every fdinfo outcome, symbolic paths / positions / flag words: rows exactly for the regular files "
            "with readable fdinfo, one liveness check exactly when a descriptor vanished, only unexpected errors "
            "propagate. A bounded sweep over generated descriptor tables on a fake procfs stays as a second check "
            "(labelled bounded).",
    "note": "io record grammar assumed; procfs environment model; O_* values of the running platform; the descriptor "
            "scan is proved per table size (SHAPE BOUND n <= 2/3, values unbounded); fdinfo first two lines assumed to "
            "be 'pos:' decimal and 'flags:' octal (kernel fs/proc/fd.c).",
    "ref": "DESIGN.md section 5 (C14)",
}

CLAIMED["C12"] = {
    "text": "Proof: Process.cmdline (every cmdline content: NUL separated with empty arguments preserved, space "
            "separated titles, ZombieProcess only for a zombie), readlink (NUL garbage and stale ' (deleted)' suffix), "
            "exe/cwd through _readlink under the procfs fault model ('' only when the kernel withheld the link), and "
            "the front-end name() extension rule, each for all inputs. parse_environ_block is covered by an exhaustive "
            "small-scope enumeration against a reference parser (labelled bounded).",
    "note": "str.split(sep) is an uninterpreted function shared by code and spec; os.path.basename uninterpreted; "
            "procfs environment model; the front-end exe() fallback (guess_it) is not under contract yet.",
    "ref": "DESIGN.md section 5 (C12)",
}

CLAIMED["C01"] = {
    "text": "Proof: is_running, _send_signal, send_signal/suspend/resume/terminate/kill and the setting forms of "
            "nice/ionice/rlimit/cpu_affinity (with _raise_if_pid_reused, __eq__ inlined from the real source) are "
            "verified against a process-table oracle for every history of observations: a signal or setting is issued "
            "only when the identity of the PID's current owner was confirmed in the same invocation, with pid > 0, the "
            "exact pid and the exact signal/value; otherwise NoSuchProcess(pid). _psposix.pid_exists never signals PID "
            "<= 0. A table obligation scans every os.kill/killpg/waitpid call site of the package.",
    "note": "process-table oracle assumed (start time identifies a process; the original never returns); check-then-act "
            "window inside one invocation not covered; native setters and os.kill are environment stubs.",
    "ref": "DESIGN.md section 5 (C01)",
}

CLAIMED["C02"] = {
    "text": "Proof: _get_ident yields (pid, start time since boot) - the epoch creation time (which depends on the "
            "kernel's boot time and on boot_time() calls) cannot reach the identity; _pslinux create_time(monotonic=True) "
            "is a function of the stat record alone for arbitrary BOOT_TIME/btime; __eq__/__ne__ compare identities "
            "(unknown start never equals a known one); __hash__ is hash(ident) with a consistent memo; is_running is "
            "True exactly while the observed owner of the PID is the very same process and False ever after; the "
            "front-end create_time() returns the epoch value and leaves the identity untouched (a start of 0 ticks "
            "included); _send_signal on the OpenBSD flavour does not latch a still-listed zombie as gone. Bounded: "
            "is_running() along process-table histories, and ==/hash/is_running() across a wall-clock step under scripts "
            "of other psutil calls before and after the step.",
    "note": "process-table oracle and stat grammar assumed; same-tick PID reuse not covered (documented assumption of "
            "the code); Linux branch except for the OpenBSD zombie contract.",
    "ref": "DESIGN.md section 5 (C02)",
}

CLAIMED["C04"] = {
    "text": "Proof: psutil.pids (ascending permutation of the listing), psutil.pid_exists (negative -> False, 0 -> "
            "listing, never an exception), _psposix.pid_exists for ints of any size (incl. the OverflowError range), "
            "_pslinux.pid_exists (thread IDs rejected through the Tgid line; loop invariant; fall-back to the listing), "
            "_psbsd.pid_exists for the OpenBSD and NetBSD definitions (result == listed under that flavour's behaviour of "
            "kill(pid, 0)). "
            "process_iter()'s cache algebra (same object while listed, gone dropped, recycled replaced, cache_clear, "
            "attrs keys, handles of live processes keep is_running()) is covered by an exhaustive bounded enumeration of "
            "process-table histories against a reference model (labelled bounded).",
    "note": "sorted()/os.kill library models; threads only as scripted interleavings (an iterator held open across "
            "events, a verdict delivered during the drain loop); two recorded known findings (C04-reused-skip, pinned by "
            "an existing test; C04-older-iterator-republishes, repair needs a redesign of the cache hand-over).",
    "ref": "DESIGN.md section 5 (C04)",
}

CLAIMED["C05"] = {
    "text": "parent() is proved for all inputs (lowest PID -> None; Process(ppid) unless that PID now belongs to a "
            "younger process or vanished; process_iter()'s cache modelled adversarially); the reuse guard "
            "_raise_if_pid_reused returns only after checking the identity in that very call. children() (non-recursive) is proved for every pid->ppid snapshot (symbolic map "
            "with a ghost key sequence, loop invariant: the result is the fold 'listed pids whose recorded parent is this "
            "process, other than itself, still there and not a zombie when looked at, not older than the caller'). "
            "children(recursive=True): the real graph walk is executed symbolically per parent-link graph over the caller "
            "and three other pids (every assignment of parents: forests, self-loops, cycles, unlisted parents) with "
            "unconstrained start times and vanished/zombie status of every child: it returns exactly the processes "
            "reachable through live, not-older links, each once, never the caller, builds at most one handle per pid, "
            "and ends on every path (SHAPE BOUND: four pids). "
            "children()/children(recursive=True) are also checked by a bounded enumeration of "
            "every parent-link graph over four PIDs (forests, self-loops, cycles, unlisted parents) x start-time "
            "orderings, with children vanishing right after the snapshot, against a reference closure; termination is "
            "watched by an alarm (labelled bounded).",
    "note": "the recursive graph walk is proved per graph up to four pids (shape bound; start times / vanishing symbolic), "
            "not for arbitrary snapshot sizes; parents() termination not claimed.",
    "ref": "DESIGN.md section 5 (C05)",
    "category": "proof",
}

CLAIMED["C03"] = {
    "text": "Proof: 19 _pslinux.Process methods, each verified through its real wrap_exceptions/memoize decorators under "
            "a fault model in which every OS access independently succeeds, fails with ENOENT/ESRCH (exactly when the "
            "process is gone; monotone) or is denied: the only exceptions that can escape are NoSuchProcess / "
            "ZombieProcess / AccessDenied carrying the object's pid, NoSuchProcess only if the process was observed "
            "gone, no IndexError/ValueError/KeyError/TypeError on grammar-conforming records, and a normal return proves "
            "the process existed at the first access. One proof per method covers every access index and every fault "
            "sequence. Loop-heavy methods, as_dict/oneshot sequences, children/parent/process_iter and 'once gone, "
            "always NoSuchProcess' across calls are covered by a bounded fault-injection sweep on a fake procfs.",
    "note": "procfs fault model and record grammars assumed; errnos outside ENOENT/ESRCH/EACCES/EPERM and truncated "
            "records outside the quantifier; one recorded known finding (C03-denied-identity-check).",
    "ref": "DESIGN.md section 5 (C03)",
}

CLAIMED["C15"] = {
    "text": "Proof over a virtual clock: _psposix.wait_pid (both polling loops cut by invariants) returns the exit code "
            "/ negated signal / None only at an instant >= the exit instant, raises TimeoutExpired(seconds=timeout, pid) "
            "only past the deadline with the process alive at the last poll and at most 40 ms late, keeps every sleep "
            "within [0.1 ms, 40 ms], never sleeps for timeout=0, uses WNOHANG exactly when a timeout is given and only "
            "waits on pid > 0; Process.wait rejects negative timeouts before doing anything and caches the exit code. "
            "wait_procs() is covered by a bounded virtual-clock simulation (labelled bounded).",
    "note": "clock and exit oracles assumed (only sleep advances time); floats as reals; EINTR only for blocking waitpid.",
    "ref": "DESIGN.md section 5 (C15)",
}

CLAIMED["C16"] = {
    "text": "Proof: memoize_when_activated's wrapper against an abstract source function, in four regimes - inactive "
            "(plain call), active/empty (one read, value stored, nothing stored on failure), active/cached (no read) and a "
            "VOLATILE model in which every access to self._cache is decided by an adversarial scheduler (absent / empty / "
            "holding): only what the source raises can escape and the result is the cached or a freshly produced value, "
            "source read at most once. Process.oneshot (generator split at its yield, the block may raise): all front-end "
            "and platform caches dropped on normal and exceptional exit, nested blocks are no-ops. as_dict for every "
            "attrs shape x per-attribute outcome: exact keys, ad_value, NoSuchProcess propagation, TypeError/ValueError "
            "before any query.",
    "note": "volatile model at attribute-operation granularity under the GIL; RLock mutual exclusion assumed; the "
            "decorators' helper defs (cache_activate/deactivate) are read from the real source.",
    "ref": "DESIGN.md section 5 (C16)",
}

CLAIMED["C09"] = {
    "text": "Proof: _pslinux.disk_io_counters with its read_procfs generator inlined - one column contract per "
            "diskstats layout (14/18/20-field disk lines, 7-field partition lines, 15-field 2.4 lines), sectors x 512, "
            "perdisk=False keeping whole disks only, as a loop invariant over any number of lines; _psposix.disk_usage "
            "arithmetic; the front-end aggregation (field-wise sums, None/{} when empty) for 0..3 devices. The "
            "/proc/net/dev parser and the diskstats path end to end are covered by bounded sweeps over generated files.",
    "note": "split() uninterpreted and shared by grammar and code; aggregation proved per fixed device count; one "
            "recorded known finding (C09-kernel-2.4, pinned by an existing test).",
    "ref": "DESIGN.md section 5 (C09)",
}

CLAIMED["C13"] = {
    "text": "Proof: memory_info (statm page counts x page size, symbolic page size), _parse_smaps_rollup (loop invariant "
            "with three folds over any roll-up file: uss = 1024 x sum of Private_* figures, pss/swap = the Pss:/Swap: "
            "figures and no other key), memory_full_info (roll-up with fall-back to the listing, tuple layout) and the "
            "front-end memory_percent (100*field/total, unknown field -> ValueError before any query). _parse_smaps, the "
            "memory_maps block splitter and the grouped/ungrouped front end are covered by a bounded sweep over generated "
            "smaps files against an independent decoding.",
    "note": "roll-up line grammar assumed; kernel roll-up == per-mapping sums is the kernel's contract; bounded part not "
            "counted as proved.",
    "ref": "DESIGN.md section 5 (C13)",
}

CLAIMED["C10"] = {
    "text": "Discharged VCs over the real source: _WrapNumbers.run under a one-step contract from any state satisfying "
            "the representation invariant (the post-state satisfies it again: induction over the history), symbolically "
            "executed for every shape of replay/c10shape.py (devices cached / in the snapshot x every reachable layout of "
            "stored and indexed offsets) with unconstrained counter values: result = raw + offset, offset grows by the "
            "previous raw value exactly at a decrease, result never below the previous output, devices that are not in the "
            "snapshot and new ones start afresh, the snapshot is stored, the other name's state and the caller's dict are "
            "untouched, no exception. _WrapNumbers.cache_clear under contract (all / one / unknown name). The front-end "
            "callers under contract (nowrap=True: filter consulted once under the function's own cache name and its "
            "figures returned; nowrap=False: raw figures). Table obligations decided exhaustively on the source: distinct "
            "literal cache names at the two call sites and the two cache_clear partials, every access to the three maps "
            "under the one lock object __init__ creates. A bounded enumeration of snapshot histories against a reference "
            "model stays as a second, representation-independent check (labelled bounded).",
    "note": "SHAPE BOUND: the step contract is proved per shape - values, offsets and history length unbounded; number "
            "of devices (<= 4) and tuple width (<= 3) by enumeration, stated as an assumption in the evidence; "
            "threading.Lock mutual exclusion assumed; two-thread schedules only through lock ownership.",
    "ref": "DESIGN.md section 5 (C10)",
}

CLAIMED["C11"] = {
    "text": "Proved / decided exhaustively: _check_conn_kind (11 documented kinds accepted, any other string -> "
            "ValueError, incl. a symbolic non-member) and the kind table (NetConnections.__init__ interpreted from the "
            "real source: each kind reaches exactly its documented (family, type) pairs, each /proc/net file once; "
            "_common.conn_tmap lists the same kinds). Address decoding, the /proc/net parsers, holder attribution and the "
            "per-process form are covered by a bounded sweep over generated socket tables on a fake procfs against an "
            "independent decoding (labelled bounded).",
    "note": "inet_ntop's text rendering is the library's; which holder an inet socket shared by several fds is attributed "
            "to is unspecified and not checked.",
    "ref": "DESIGN.md section 5 (C11)",
}

CLAIMED["C19"] = {
    "text": "Proof, with every figure symbolic: the front-end sensors_temperatures (Fahrenheit = C*9/5+32, None preserved, "
            "missing high/critical back-filled), cpu_freq (mean over 0..3 CPUs, None for zero, min/max None case), "
            "cpu_count (<1 -> None), _pslinux.sensors_battery for 35 file-layout configurations (percent = now/full*100, "
            "capacity fallback, AC adapter vs status, seconds left = int(now/power*3600), UNLIMITED/UNKNOWN, None "
            "without battery), _pslinux.sensors_temperatures for flat / nested / mixed / unreadable / thermal-zone / "
            "empty hardware trees and trees with an unparsable threshold file (millidegrees scaled exactly once, unreadable "
            "sensors skipped), sensors_fans, _pslinux.cpu_freq (sysfs definition, chosen by world among the conditional "
            "definitions; numeric policy order; cpuinfo values only when there is one per CPU) and boot_time (loop "
            "invariant over /proc/stat).",
    "note": "hardware-tree layouts are a fixed family (the glob plumbing is concrete per layout, all values symbolic); "
            "cpu_stats, cpu_count_cores/logical parsers are not under contract.",
    "ref": "DESIGN.md section 5 (C19)",
}

CLAIMED["C20"] = {
    "text": "Proof on the real source text of the non-Linux layers (never imported; native modules are stubs): the five "
            "exception-translating wrappers (FreeBSD, macOS, SunOS, AIX, Windows) against an abstract wrapped function "
            "for every fault in {ESRCH, ENOENT, EPERM, EACCES, EIO, EINVAL, Windows access codes, non-OSError} x zombie or "
            "not x PID 0 or not: NoSuchProcess/ZombieProcess/AccessDenied carry the pid and the cached name object, other "
            "errors pass through with class and errno unchanged, with the one documented PID-0 exception on BSD/SunOS; "
            "accessors of BSD/macOS/Windows return the documented tuple class filled from the matching record slots "
            "(pairwise distinct symbolic slots; Windows memory record incl. its permission-error fallback); the front-end "
            "net_if_addrs under WINDOWS=True/False (each row's own computed broadcast takes effect, MAC padding); "
            "_psbsd.is_zombie per flavour; Process.exe on NetBSD through the generator-based /proc wrapper. Table "
            "obligations: gids()/uids() tuple classes in all five modules, FreeBSD C producer slot order and uid/gid "
            "field binding, the RLIM* export block executed against every name the C source registers, every optional "
            "function x platform pair docs/index.rst documents.",
    "note": "native layers themselves are outside reach; accessor coverage is a subset of each platform's methods; "
            "__all__/documentation availability not checked.",
    "ref": "DESIGN.md section 5 (C20)",
}

CLAIMED["C18"] = {
    "text": "Proof, C layer (vc/cvc.py: VCs generated from clang's macro-expanded AST of the working tree, fixed-width "
            "bit-vectors, z3 + cvc5): psutil_posix_getpriority/setpriority follow the errno protocol for every int "
            "(errno zeroed before, OSError iff the kernel reported one, carrying its errno; the value returned is the "
            "kernel's, -1 included; exact (PRIO_PROCESS, pid[, value]) pass-through); psutil_proc_ioprio_get unpacks "
            ">>13 / &0x1fff, psutil_proc_ioprio_set packs class<<13|data with no shift UB for any int and "
            "unpack(pack(c,d)) == (c,d); psutil_proc_cpu_affinity_get: the cpu set is doubled without overflow until the "
            "kernel accepts it, every access stays inside the allocation of the current (symbolic) size, it is freed "
            "exactly once on every path, and by a ghost popcount invariant (count == number of set bits from cpu on) "
            "every CPU reported has its bit set, the count is taken over the size the kernel filled and the scan stops only "
            "when none is left. Proof, Python layer: _pslinux ionice_set/ionice_get/nice_get/nice_set/rlimit/"
            "cpu_affinity_set (validation before any native call, exact pass-through, EINVAL/ValueError diagnosis over "
            "request lists of any length by loop invariant) and the front-end nice/ionice/rlimit/cpu_affinity argument "
            "rules (level without class, [] = eligible CPUs, de-duplication).",
    "note": "'the kernel applies exactly that value and nobody else changes' is the system calls' contract: bounded live "
            "round trip on a child + bystander (every nice -20..19, class x level, CPU subsets, every RLIMIT_*) with the "
            "extension rebuilt from the working tree. _get_eligible_cpus is bounded only; termination and completeness "
            "of the affinity scan are not proved. One known finding (range-less Cpus_allowed_list, pinned by an existing test).",
    "ref": "DESIGN.md section 5 (C18)",
}

CLAIMED["C17"] = {
    "text": "Proof, C layer (vc/cvc.py: VCs from clang's macro-expanded AST of the working tree, bit-vectors + arrays, "
            "z3 re-checked by cvc5) for 20 functions - every entry of both mod_methods tables (checked by a table obligation) plus psutil_convert_ipaddr, psutil_pid_exists, append_flag: psutil_users (every string read stays inside its fixed-width utmp "
            "field for arbitrary record content; tuple slots user/terminal/host|localhost/started/pid, cut at field "
            "width; only USER_PROCESS), psutil_disk_partitions (slots = getmntent fields; reference ownership: no double "
            "release or use after release on any error path), psutil_convert_ipaddr (every MAC sprintf inside "
            "buf[NI_MAXHOST], loop invariant ptr = buf+3n), net_if_mtu/is_running/duplex_speed (bounded ifr_name copy, no "
            "signed overflow combining the speed words, speed in [0, INT_MAX]), proc_cpu_affinity_set (every item an error "
            "or a store inside cpu_set_t), ioprio_get/set, getpriority/setpriority, check_pid_range, pid_exists, "
            "set_debug, getpagesize, linux_sysinfo, append_flag, net_if_flags (path merging; call-site obligation: a flag name is reported only where flags & IFF_<NAME> is set, plus a completeness table): no signed overflow, shift UB, out-of-bounds access or "
            "ownership error for any argument; NULL iff an exception is set; psutil_net_if_addrs (getifaddrs list walk: "
            "tuple slots per node - name, family, address, netmask, broadcast only under IFF_BROADCAST, ptp only under "
            "IFF_POINTOPOINT - and reference ownership on every error path, psutil_convert_ipaddr applied through its own "
            "contract); psutil_proc_cpu_affinity_get (see C18). Proof, Python layer: _pslinux.users / "
            "disk_partitions (keep iff all or device and disk-backed fs type) / net_if_stats (ENODEV skipped).",
    "note": "Whole-extension memory safety is a bounded stand-in: ASan+UBSan build of the working tree's C files, "
            "argument grid over every mod_methods entry (~9000 calls), generated utmp and mounts files with an independent "
            "struct/escape decoding as oracle, injected ethtool answers. Python loops unrolled for <= 2 records. "
            "Kernel agreement of the interface list is not within reach.",
    "ref": "DESIGN.md section 5 (C17)",
}

NOT_YET = "check not built yet (work in progress, see DESIGN.md section 7)"
NA = {}


def main():
    props = [json.loads(l)["id"] for l in open(os.path.join(HERE, "properties.jsonl"))]
    checks = []
    for p in props:
        if p in CLAIMED:
            e = CLAIMED[p]
            checks.append({
                "property_id": p,
                "quick_cmd": f"./check {p} --tier quick",
                "thorough_cmd": f"./check {p} --tier thorough",
                "evidence_file": f"evidence/{p}.json",
                "replay_cmd_template": "cat {path}",
                "engine": "pyvc",
                "level_claimed": {"category": e.get("category", "proof"), "text": e["text"], "design_ref": e["ref"]},
                "level_note": e["note"],
                "technique": e.get("technique", TECH),
            })
    m = {
        "version": 1,
        "setup_cmd": "./setup.sh",
        "hooks": {"guard": "PSUTIL_VERIF",
                  "enable": "no hooks are needed: the checks read /repo's source text and import psutil in place for replays",
                  "baseline_off_cmd": "cd /repo && /venv/bin/python -m pytest -ra -q -p no:cacheprovider --timeout=900 --continue-on-collection-errors",
                  "source_commits": [], "add_only": True},
        "engines": [{"name": "pyvc", "path": "vc/", "serves_properties": sorted(CLAIMED),
                     "kind_free_text": "verification-condition generator for a python subset run on the real ASTs; "
                                       "SMT-LIB2 emitted once, discharged by cvc5 and z3; counter-models replayed on the real code"},
                    {"name": "cvc", "path": "vc/cvc.py", "serves_properties": ["C17", "C18"],
                     "kind_free_text": "verification-condition generator for the real C functions of the extension over clang's "
                                       "macro-expanded JSON AST; fixed-width bit-vectors and arrays, z3 re-checked by cvc5; "
                                       "contracts for the CPython C-API, libc and system calls; ghost reference ownership"}],
        "checks": checks,
        "notes": "contract-based deductive verification of the real code; see DESIGN.md. Exit codes of ./check: 0 held, "
                 "1 violation, 2 undecided, 3 checker error.",
        "not_applicable": [{"property_id": p, "reason": NA.get(p, NOT_YET)} for p in props if p not in CLAIMED],
    }
    with open(os.path.join(HERE, "MANIFEST.json"), "w") as f:
        json.dump(m, f, indent=1)
    print("MANIFEST.json:", len(checks), "checks,", len(m["not_applicable"]), "not applicable")


if __name__ == "__main__":
    main()
