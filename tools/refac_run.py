#!/venv/bin/python
"""Run every harmless refactoring under refactorings/<id>*/refactor_k.patch through its property's quick check on a scratch
copy (tools/seed_try.py) and rewrite refactorings/results.json.  usage: refac_run.py [--jobs N] [<dir name> ...]"""
import json
import os
import re
import subprocess
import sys
from concurrent.futures import ThreadPoolExecutor

HERE = os.path.dirname(os.path.dirname(os.path.abspath(__file__)))
RD = os.path.join(HERE, "refactorings")


def what_of(d, k):
    p = os.path.join(RD, d, "notes.md")
    if not os.path.exists(p):
        return ""
    txt = open(p).read()
    m = re.search(rf"(?ms)^#+[^\n]*refactor_{k}[^\n]*\n(.*?)(?=^#+ |\Z)", txt)
    body = (m.group(1) if m else txt)
    return " ".join(body.split())[:300]


def one(job):
    d, f = job
    prop = d.split("-")[0]
    r = subprocess.run([os.path.join(HERE, "tools", "seed_try.py"), prop, os.path.join(RD, d, f)], capture_output=True,
                       text=True, cwd=HERE)
    m = re.search(r"rc=(\d+)", r.stdout)
    rc = int(m.group(1)) if m else 3
    lines = [ln.strip() for ln in r.stdout.splitlines()[1:6]]
    res = "exit 0" if rc == 0 else f"exit {rc}: " + " / ".join(lines)[:300]
    print(d, f, res[:150], flush=True)
    return {"id": d, "patch": f, "rc": rc, "what": what_of(d, f.split("_")[1].split(".")[0]), "result": res}


def main():
    args = [a for a in sys.argv[1:] if not a.startswith("--")]
    jobs = int(sys.argv[sys.argv.index("--jobs") + 1]) if "--jobs" in sys.argv else 4
    if "--jobs" in sys.argv:
        args = [a for a in args if a != str(jobs)]
    dirs = args or sorted(x for x in os.listdir(RD) if os.path.isdir(os.path.join(RD, x)))
    work = [(d, f) for d in dirs for f in sorted(os.listdir(os.path.join(RD, d))) if f.endswith(".patch")]
    with ThreadPoolExecutor(max_workers=jobs) as ex:
        out = list(ex.map(one, work))
    rp = os.path.join(RD, "results.json")
    old = json.load(open(rp)) if os.path.exists(rp) else []
    keep = [r for r in old if (r["id"], r["patch"]) not in {(o["id"], o["patch"]) for o in out}]
    for o in out:      # keep the hand-written description of earlier entries
        prev = next((r for r in old if (r["id"], r["patch"]) == (o["id"], o["patch"])), None)
        if prev and prev.get("what"):
            o["what"] = prev["what"]
    json.dump(sorted(keep + out, key=lambda r: (r["id"], r["patch"])), open(rp, "w"), indent=1)
    bad = [o for o in out if o["rc"] == 1]
    print(f"{len(out)} run: {sum(o['rc'] == 0 for o in out)} exit 0, {sum(o['rc'] == 2 for o in out)} exit 2, "
          f"{sum(o['rc'] == 3 for o in out)} exit 3, {len(bad)} exit 1")
    return 1 if bad else 0


if __name__ == "__main__":
    sys.exit(main())
