#!/venv/bin/python
"""For each seeded change: apply it to a scratch copy of /repo's working tree, run the property's quick check against
that copy (VERIF_REPO), record what fired in seeded/<id>/meta.json (detected_by, check_rc) and print one table row.
/repo itself is never modified."""
import json
import os
import re
import subprocess
import sys

HERE = os.path.dirname(os.path.dirname(os.path.abspath(__file__)))


def sh(cmd, **kw):
    p = subprocess.run(cmd, shell=True, capture_output=True, text=True, **kw)
    return p.returncode, p.stdout + p.stderr


def pick(notes, keys):
    for para in re.split(r"\n\s*\n|\n- |\n\*\*", notes):
        low = para.lower()
        if any(k in low for k in keys):
            return " ".join(para.split())[:420]
    return ""


def main():
    ids = sys.argv[1:] or sorted(os.listdir(os.path.join(HERE, "seeded")))
    import shutil
    import tempfile
    rows = []
    for sid in ids:
        sd = os.path.join(HERE, "seeded", sid)
        if not os.path.exists(os.path.join(sd, "patch.diff")):
            continue
        # scratch copy of /repo's working tree (incl. the built extension): /repo itself is never touched
        d = tempfile.mkdtemp(prefix="vfdetect_")
        try:
            shutil.copytree("/repo/psutil", os.path.join(d, "psutil"))
            os.makedirs(os.path.join(d, "docs"), exist_ok=True)
            shutil.copy("/repo/docs/index.rst", os.path.join(d, "docs"))
            for f in ("setup.py", "pyproject.toml"):
                if os.path.exists("/repo/" + f):
                    shutil.copy("/repo/" + f, d)
            rc, out = sh(f"patch -s -p1 -d {d} -i {sd}/patch.diff")
            if rc != 0:
                rows.append((sid, "patch does not apply", "", ""))
                print("| %s | %s | %s | %s |" % rows[-1], flush=True)
                continue
            env = dict(os.environ, VERIF_REPO=d)
            rc, out = sh(f"./check {sid.split('-')[0]} --tier quick --no-evidence", cwd=HERE, timeout=3000, env=env)
        finally:
            shutil.rmtree(d, ignore_errors=True)
        obl = []
        lines = out.splitlines()
        for i, ln in enumerate(lines):
            if ln.startswith("VIOLATION") and i + 1 < len(lines) and "obligation:" in lines[i + 1]:
                o = lines[i + 1].split("obligation:", 1)[1].strip()
                o = re.sub(r"@\d+", "@", o)
                tail = " (no-failing-input-found)" if ln.rstrip().endswith("no-failing-input-found") else ""
                if o + tail not in obl:
                    obl.append(o + tail)
        meta_p = os.path.join(sd, "meta.json")
        meta = json.load(open(meta_p)) if os.path.exists(meta_p) else {"id": sid}
        notes = open(os.path.join(sd, "notes.md")).read() if os.path.exists(os.path.join(sd, "notes.md")) else ""
        meta.update({
            "property": sid.split("-")[0],
            "breaks": pick(notes, ("clause broken", "effect", "breaks", "property clause")),
            "needs": pick(notes, ("needed to manifest", "what is needed", "to manifest", "needs")),
            "check_cmd": f"tools/seed_try.py {sid.split('-')[0]} seeded/{sid}/patch.diff   (or: git -C /repo apply seeded/{sid}/patch.diff && "
                         f"./check {sid.split('-')[0]} --tier quick; git -C /repo checkout -- .)",
            "check_rc": rc, "detected": rc == 1 and bool(obl), "detected_by": obl[:6],
            "detection_head": sh("git -C /repo rev-parse --short HEAD")[1].strip(),
        })
        json.dump(meta, open(meta_p, "w"), indent=1)
        rows.append((sid, "yes" if meta["detected"] else f"NO (rc {rc})", "; ".join(obl[:2])[:260],
                     "confirmed" if meta.get("confirmed") else "pending"))
        print("| %s | %s | %s | %s |" % rows[-1], flush=True)
    return 0


if __name__ == "__main__":
    sys.exit(main())
