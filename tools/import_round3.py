#!/venv/bin/python
"""Importer: round-3 / round-4 seeded changes written by sub-agents in scratch worktrees /tmp/seed3/<id>/ ->
seeded/<id>-s<k>/{patch.diff,demo.py,notes.md[,helpers]}.  Hard-coded scratch paths in the demos are rewritten to the
directory the demo runs from."""
import os
import re
import shutil
import sys

HERE = os.path.dirname(os.path.dirname(os.path.abspath(__file__)))
SRC = sys.argv[1] if len(sys.argv) > 1 else "/tmp/seed3"
SUFFIX = sys.argv[2] if len(sys.argv) > 2 else "s"          # round 3: -sK, round 4: -tK
ROUND = {"s": 3, "t": 4, "u": 5, "v": 6}.get(SUFFIX, SUFFIX)

for pid in sorted(os.listdir(SRC)):
    if not re.fullmatch(r"C\d\d", pid):
        continue
    d = os.path.join(SRC, pid)
    notes = open(os.path.join(d, "seed_notes.md")).read() if os.path.exists(os.path.join(d, "seed_notes.md")) else ""
    secs = re.split(r"(?m)^(?=#+ .*seed_(\d)\b)", notes)
    bynum = {}
    for i in range(1, len(secs) - 1, 2):
        bynum[secs[i]] = secs[i + 1]
    for k in "1234":
        pf = os.path.join(d, f"seed_{k}.patch")
        if not os.path.exists(pf):
            continue
        out = os.path.join(HERE, "seeded", f"{pid}-{SUFFIX}{k}")
        os.makedirs(out, exist_ok=True)
        shutil.copy(pf, os.path.join(out, "patch.diff"))
        demo = open(os.path.join(d, f"demo_{k}.py")).read()
        here = '__import__("os").path.dirname(__import__("os").path.abspath(__file__))'
        demo = re.sub(r'"/tmp/seed\d/C\d\d/"', f'({here} + "/")', demo)
        demo = re.sub(r'"/tmp/seed\d/C\d\d/([^"]*)"', lambda m: f'({here} + "/{m.group(1)}")', demo)
        assert "/tmp/seed" not in demo, (pid, k)
        open(os.path.join(out, "demo.py"), "w").write(demo)
        open(os.path.join(out, "notes.md"), "w").write(
            f"# {pid} round {ROUND}, seed {k} (written by a sub-agent given only the property text)\n\n"
            + (bynum.get(k) or notes))
        for f in os.listdir(d):
            if f.endswith(".py") and not f.startswith("demo_") and f != "setup.py":
                shutil.copy(os.path.join(d, f), os.path.join(out, f))
        print(out)
