#!/venv/bin/python
"""Confirm a seeded change in its scratch worktree /tmp/seed/<id> (outside /repo and /verif):
 1. worktree reset to /repo's HEAD, seeded/<id>/patch.diff applied, .so files copied
 2. demo must FAIL with the change
 3. the baseline test-suite (stable-pass list of /root/.vp/BASELINE.json) must still pass with the change
 4. change reverted, demo must PASS
Writes seeded/<id>/meta.json.  usage: confirm_seed.py <id> [--no-suite]"""
import json
import os
import subprocess
import sys
import time
import xml.etree.ElementTree as ET

HERE = os.path.dirname(os.path.dirname(os.path.abspath(__file__)))


def sh(cmd, cwd=None, env=None, timeout=3600):
    p = subprocess.run(cmd, shell=True, cwd=cwd, env=env, capture_output=True, text=True, timeout=timeout)
    return p.returncode, p.stdout + p.stderr


def main():
    sid = sys.argv[1]
    suite = "--no-suite" not in sys.argv
    wt = f"/tmp/seed/{sid}"
    sd = os.path.join(HERE, "seeded", sid)
    head = sh("git -C /repo rev-parse HEAD")[1].strip()
    if not os.path.isdir(wt):
        sh(f"git -C /repo worktree add -q --detach {wt} HEAD")
    sh("git checkout -q -- . && git clean -qfd -e '*.so'", cwd=wt)
    sh(f"git checkout -q --detach {head}", cwd=wt)
    sh(f"cp /repo/psutil/*.so {wt}/psutil/")
    rc, out = sh(f"git apply {sd}/patch.diff", cwd=wt)
    meta = {"id": sid, "repo_head": head, "ran": []}
    if rc != 0:
        meta["error"] = "patch does not apply: " + out[-400:]
        json.dump(meta, open(f"{sd}/meta.json", "w"), indent=1)
        print(meta["error"])
        return 1
    env = dict(os.environ, PYTHONPATH=wt)
    c_change = any(l.startswith("+++ ") and l.strip().endswith((".c", ".h")) for l in open(f"{sd}/patch.diff"))
    if c_change:          # a C change only takes effect after the extension is rebuilt (inside the scratch worktree)
        rc_b, out_b = sh("/venv/bin/python setup.py build_ext -i", cwd=wt, timeout=900)
        meta["ran"].append(f"cd {wt} && /venv/bin/python setup.py build_ext -i -> rc {rc_b}")
        if rc_b != 0:
            meta["error"] = "build failed: " + out_b[-400:]
    sh(f"cp {sd}/demo.py {wt}/demo_seed.py")
    for extra in os.listdir(sd):          # helper modules a demo imports
        if extra.endswith(".py") and extra != "demo.py":
            sh(f"cp {sd}/{extra} {wt}/{extra}")
    rc_with, out_with = sh("/venv/bin/python demo_seed.py", cwd=wt, env=env, timeout=600)
    meta["demo_with_change_rc"] = rc_with
    meta["ran"].append(f"cd {wt} && PYTHONPATH={wt} /venv/bin/python demo_seed.py  -> rc {rc_with} (must be != 0)")
    if suite:
        base = json.load(open("/root/.vp/BASELINE.json"))
        junit = f"/tmp/seed/{sid}.junit.xml"
        t0 = time.time()
        rc_s, out_s = sh(f"/venv/bin/python -m pytest -ra -q -p no:cacheprovider --timeout=900 "
                         f"--continue-on-collection-errors --junitxml={junit}", cwd=wt, env=env, timeout=5400)
        meta["suite_wall_s"] = round(time.time() - t0)
        passed = set()
        try:
            for tc in ET.parse(junit).getroot().iter("testcase"):
                ok = not any(ch.tag in ("failure", "error", "skipped") for ch in tc)
                if ok:
                    passed.add(f"{tc.get('classname')}::{tc.get('name')}")
        except Exception as e:  # noqa: BLE001
            meta["suite_error"] = str(e)
        missing = [t for t in base["stable_pass"] if t not in passed]
        meta["suite_stable_pass_missing"] = missing
        meta["suite_ok"] = not missing
        meta["ran"].append(f"cd {wt} && PYTHONPATH={wt} " + base["cmd"].split("&& ")[1].replace("<file>", junit)
                           + f"  -> {len(passed)} passed, {len(missing)} of the 492 stable tests missing")
    sh("git checkout -q -- .", cwd=wt)
    if c_change:
        sh("/venv/bin/python setup.py build_ext -i", cwd=wt, timeout=900)
    rc_wo, out_wo = sh("/venv/bin/python demo_seed.py", cwd=wt, env=env, timeout=600)
    meta["demo_without_change_rc"] = rc_wo
    meta["ran"].append(f"(change reverted) PYTHONPATH={wt} /venv/bin/python demo_seed.py -> rc {rc_wo} (must be 0)")
    meta["confirmed"] = rc_with != 0 and rc_wo == 0 and (meta.get("suite_ok", True))
    old = {}
    if os.path.exists(f"{sd}/meta.json"):
        try:
            old = json.load(open(f"{sd}/meta.json"))
        except Exception:  # noqa: BLE001
            old = {}
    for k in ("property", "breaks", "needs", "detected_by", "check_result"):
        if k in old:
            meta[k] = old[k]
    json.dump(meta, open(f"{sd}/meta.json", "w"), indent=1)
    print(json.dumps({k: v for k, v in meta.items() if k != "ran"}, indent=1)[:1500])
    return 0 if meta["confirmed"] else 1


if __name__ == "__main__":
    sys.exit(main())
