#!/venv/bin/python
"""Markdown status table from evidence/*.json (used to refresh DESIGN.md section 0.2)."""
import glob
import json
import os

HERE = os.path.dirname(os.path.dirname(os.path.abspath(__file__)))
rows = []
for p in sorted(glob.glob(os.path.join(HERE, "evidence", "C*.json"))):
    d = json.load(open(p))
    c = d["coverage"]
    fns = sorted({f["contract"] for f in c["functions_under_contract"]})
    cf = c.get("c_functions", [])
    bounded = "; ".join(f"{b['function']} ({b['cases']} cases)" for b in c.get("bounded", [])) or "-"
    rows.append(f"| {d['property_id']} | {len(fns)} py" + (f" + {len(cf)} C" if cf else "") +
                f" | {c['obligations']} / {c['discharged']} | {len(c.get('tables', []))} | {bounded} | "
                f"{', '.join(c.get('known_findings', [])) or '-'} | {d['wall_s']:.0f}s |")
print("| id | functions under contract | obligations / discharged | table rows | bounded stand-ins (quick tier) | known findings | wall |")
print("|---|---|---|---|---|---|---|")
print("\n".join(rows))
