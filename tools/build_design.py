#!/venv/bin/python
"""DESIGN.md = tools/asbuilt_head.md (Part 0, tables filled from evidence/ and seeded/*/meta.json) + the round-0 design
(DESIGN.md from its section 1 on)."""
import json
import os
import subprocess

HERE = os.path.dirname(os.path.dirname(os.path.abspath(__file__)))
head = open(os.path.join(HERE, "tools", "asbuilt_head.md")).read()
status = subprocess.run([os.path.join(HERE, "tools", "status_table.py")], capture_output=True, text=True).stdout.strip()
rows = ["| seed | breaks (from the seeding agent's notes) | caught by (quick tier) | replayed input | baseline suite with the change |",
        "|---|---|---|---|---|"]
for sid in sorted(os.listdir(os.path.join(HERE, "seeded"))):
    p = os.path.join(HERE, "seeded", sid, "meta.json")
    if not os.path.exists(p):
        rows.append(f"| {sid} | (no meta) | | | |")
        continue
    m = json.load(open(p))
    by = m.get("detected_by", [])
    replayed = "yes" if any("no-failing-input-found" not in b for b in by) else "no (obligation only)"
    suite = "492/492 stable tests pass" if m.get("suite_ok") else (("demo fails with / passes without the change; full suite not run here" if m.get("confirmed") else "pending") if "suite_ok" not in m else f"missing: {m.get('suite_stable_pass_missing')}")
    if not m.get("confirmed") and "suite_ok" in m:
        suite += " (demo rc %s/%s)" % (m.get("demo_with_change_rc"), m.get("demo_without_change_rc"))
    br = (m.get("breaks") or "").replace("|", "/")[:230]
    rows.append(f"| {sid} | {br} | {'; '.join(b.replace('|', '/')[:150] for b in by[:2]) or 'NOT DETECTED'} | {replayed} | {suite} |")
rf = os.path.join(HERE, "refactorings", "results.json")
if os.path.exists(rf):
    res = json.load(open(rf))
    rrows = ["| property | refactoring | what it changes | check result |", "|---|---|---|---|"]
    for r in res:
        rrows.append(f"| {r['id']} | {r['patch']} | {r['what'][:170].replace('|', '/')} | {r['result']} |")
    n0 = sum(1 for r in res if r["rc"] == 0)
    rrows.append(f"| | | **{len(res)} refactorings: {n0} exit 0, {sum(1 for r in res if r['rc'] == 2)} exit 2 (undecided), "
                 f"{sum(1 for r in res if r['rc'] == 3)} exit 3, {sum(1 for r in res if r['rc'] == 1)} exit 1** | |")
    head = head.replace("@@REFAC_TABLE@@", "\n".join(rrows))
else:
    head = head.replace("@@REFAC_TABLE@@", "(results pending)")
head = head.replace("@@ROUND4@@", "")
head = head.replace("@@STATUS_TABLE@@", status).replace("@@SEED_TABLE@@", "\n".join(rows))
old = open(os.path.join(HERE, "DESIGN.md")).read()
i = old.index("## 1. Why contracts + a deductive verifier reach what the tests cannot")
open(os.path.join(HERE, "DESIGN.md"), "w").write(head + "\n" + old[i:])
print("DESIGN.md rebuilt:", len((head + old[i:]).splitlines()), "lines")
