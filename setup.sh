#!/bin/sh
# offline setup: nothing is fetched or built; verify the tools the checks call.
set -e
cd "$(dirname "$0")"
for t in /usr/bin/cvc5 z3-new clang /venv/bin/python; do
  command -v "$t" >/dev/null 2>&1 || { echo "missing tool: $t" >&2; exit 1; }
done
mkdir -p evidence replays
echo setup-ok
